#!/usr/bin/env python3
"""Generate /verif/MANIFEST.json from the table below (single source of truth)."""
import json, os, subprocess

ROOT = os.path.dirname(os.path.dirname(os.path.abspath(__file__)))

def repo_commits(prefix):
    out = subprocess.run(["git", "-C", "/repo", "log", "--format=%H %s"], capture_output=True, text=True).stdout
    return [l.split()[0] for l in out.splitlines() if l.split(" ", 1)[1].startswith(prefix)]

CHECKS = {
 "C01": dict(engine="sim", cat="exploration", design="3/C01",
   technique="runtime monitor: production server session on a scripted transport, output byte stream compared with an executable reference Modbus server (differential oracle), overflow checks + debug assertions on",
   text="Every generated session (requests over the grammar incl. the full (function byte x payload length) grid, unit maps, handler exception maps, read partitions, decode levels; MBAP and RTU) is executed by the real SessionTask and its complete output is compared byte-for-byte with a reference server written from the specification. Held = no differing byte on the executions produced; not a proof.",
   note="Trusts the reference server in harness/vcommon/src/model.rs and the hook that substitutes the byte stream (rodbus::verif). Outcomes the property text leaves open are accepted both ways (listed in DESIGN.md 2.5)."),
 "C02": dict(engine="sim", cat="exploration", design="3/C02",
   technique="runtime monitor: ordered handler/authorization call log and final application state checked against the reference server's predicted calls (sequential log matcher)",
   text="Instrumented handlers record every invocation with fully drained iterators and size hints; the log and the resulting point store are compared with what the reference predicts from the input alone, on sessions weighted 3:1 towards malformed / over-limit / wrong-unit / unknown-function input.",
   note="Reads are checked to stay inside the requested range (what the property states), writes exactly once with exact values. Trusts the instrumented handlers and reference parser."),
 "C08": dict(engine="sim", cat="exploration", design="3/C08",
   technique="runtime monitor: interleaved authorization+handler call log, replies and state vs reference server with pure, stateful and built-in read-only policies",
   text="Sessions are created with (authorization handler, role) through the hook; pure-function, alternate, allow-once, deny-once, allow-all, deny-all and the built-in read-only policy, 7 role strings. One ordered log shows the authorization call precedes any point access; denied requests must leave state untouched and be answered with exception 01.",
   note="In the SIM part the role string is injected through the hook; the certificate -> role -> authorization path runs over real TLS in 24 cells (authority / self-signed x operator / viewer certificate x read / write single / write multiple x min 1.2 / 1.3) with a role-based policy, and in C09. Authorization is not expected to be consulted for malformed requests."),
 "C17": dict(engine="sim", cat="exploration", design="3/C17",
   technique="runtime monitor: output-stream equality (silence = equality) and per-unit call logs vs reference server over the whole unit-id space, RTU broadcast included",
   text="All 256 unit ids x eight kinds x valid / handler-failing / malformed against handler maps of 0-4 units, in sequences so that a silent frame is followed by an answered one; broadcast writes must reach every configured unit exactly once and never be answered.",
   note="Trusts reference server; attribution of an unexpected reply to a silent request uses unique transaction ids (MBAP) or the unit id (RTU, no authorization)."),

 "C03": dict(engine="sim", cat="exploration", design="3/C03",
   technique="runtime monitor: bytes written by the production client loop per submitted request compared with a reference encoder (or required to be empty); public constructor compared with its model over its argument space",
   text="Requests over the boundary lattice (2000/2001, 125/126, 1968/1969/1976/1977, 123/124, 65535/65536 values, overflowing ranges) are submitted through Channel, CallbackSession and FfiChannel on MBAP and RTU sessions, half of the invalid ranges as struct literals that never went through AddressRange::try_from (the fields are public); the transport log between submission and completion must be exactly one reference frame, or empty with an error result. Frame length maxima are recorded. AddressRange::try_from is compared with its model on a stratified sample (quick) or the full 2^32 space (thorough).",
   note="Trusts the reference encoder; transaction ids may step by more than one only across requests the task itself rejected."),
 "C04": dict(engine="sim", cat="exploration", design="3/C04",
   technique="runtime monitor: request results compared with a reference response decoder over crafted reply PDUs (differential oracle), future- and callback-style result paths",
   text="For every request kind and lattice range the peer answers with the genuine reply, every function byte, every truncation/extension, byte-count and echo variations, all exception codes with 0-2 trailing bytes, replies of other requests and random PDUs, with the correct transaction id; the completion must be exactly what the reference decoder prescribes (values indexed from the start address, that exception code, or a non-exception error).",
   note="RTU replies the reference RTU receiver cannot delimit or rejects only need to fail with a non-exception error. Byte-count-field lies with otherwise exact data are accepted either way."),
 "C05": dict(engine="sim", cat="exploration", design="3/C05",
   technique="runtime monitor: metamorphic partition test - same byte stream under 10 read partitions (with injected delays and command-induced cancellation of the pending read) must give identical records, and match the reference framing + server",
   text="Server and client roles. Streams of valid/invalid/empty/maximum frames, optionally ended by a malformed MBAP header followed by a valid write that must never execute. Partitions include 1-byte reads and reads ending at / around the 260-byte buffer edge; the number of executions that reached the compaction path is measured. TLS leg: the same kind of stream sent to a real rodbus TLS server by an independent TLS peer as one record / 1-byte / 7-byte / header-split / 259+261-byte / random records (reply stream and handler write log equal to the reference in every run; session closed at the malformed header, the write behind it never executed), and a real rodbus TLS client whose replies arrive in 1 / 3 / 7-byte, header-split and random records.",
   note="The compaction counter comes from a harness model of the buffer and is coverage information only."),
 "C06": dict(engine="sim", cat="fault_enumeration", design="3/C06",
   technique="fault enumeration under a runtime monitor: all 1-bit, all 2-bit (short frames), burst <=16-bit and CRC-byte corruptions of base frames delivered to the production RTU parser; independent bitwise-CRC reference receiver decides acceptance; emission monitor re-parses every emitted frame",
   text="Each corrupted frame gets its own session (after a sentinel) in server role (12 request frames, two of them addressed to units 248 and 255) and client role (22 response / exception frames, four of them from units 248 / 255), delivered whole, byte-per-byte and randomly chunked. No handler call, reply or accepted response may result unless the independent receiver finds a CRC-valid frame. The enumerated classes are exhaustive per base frame as stated in the evidence. A used-link campaign repeats a sample of corruptions after 1-3 earlier exchanges on the same session (larger frames first), and a pty leg sends length-preserving corruptions to the real serial server task over a pseudo-terminal.",
   note="The CRC reference is self-checked against published vectors at start-up. On a used link only the first corrupted frame after valid traffic is judged; what the receiver does with the bytes after a rejected frame is unspecified and not tested."),
 "C07": dict(engine="sim", cat="exploration", design="3/C07",
   technique="runtime monitoring under hostile input: panic hook + rustc overflow checks/debug assertions, transport poll counter (spin), virtual-time and wall-clock watchdogs (subprocess workers), follow-up session and follow-up request as liveness probes",
   text="Grammar-aware mutations of valid traffic and raw random bytes, server and client roles, MBAP and RTU, all 36 decode levels with a formatting subscriber, random partitions; after the hostile stream the session must end on EOF/shutdown/handle drop, a fresh session on the same handler map must answer, the client handle must still complete requests and honour shutdown; a flood of stale frames must not postpone a request's completion beyond its deadline (bounded progress); a peer that keeps thousands of valid requests readable must not keep the session from seeing a shutdown command or a dropped handle (the scripted transport yields cooperatively like a real socket), and neither must a peer that sends requests and never reads the replies (the transport refuses every write). Thorough adds a libFuzzer+AddressSanitizer target over the same harness entry point (coverage-guided byte streams, both roles) and a Miri run of the session loop on a sample.",
   note="Panics that the runtime catches inside spawned tasks are reported through the panic hook; a sentinel completing with Shutdown although nobody shut the task down is a violation. A non-yielding loop is reported only after the case fails to finish alone twice with a 10x budget. Multi-session isolation on a real server is in C15."),
 "C10": dict(engine="sim", cat="exploration", design="3/C10",
   technique="runtime monitor: exactly-once completion log keyed by request id + sequential reference of the client semantics giving the allowed result classes, over random event scripts in virtual time",
   text="Scripts of 5-40 events over submit (three API styles, several handles), reply variants, partial reply, garbage, read error, EOF, write error, enable, disable, set-decode, shutdown, clone/drop handle, task abort and time advances around the deadlines; every request must complete exactly once with a class the history allows (no-connection only while down, timeout only after the deadline, shutdown only when the task is gone or try_send failed), including sessions with a consecutive-timeout limit and connections that break in the middle of a reply (cut inside the header, right after it, inside the body). A serial leg (pty) checks what a request submitted while a lost port is being re-opened completes with. A peer-stops-reading leg (writes never complete): every request must still complete within its own timeout with an error, and shutdown / handle drop / disable must still end the session. A back-pressure leg runs 2-41 concurrent submitters on queues of 1-4 slots against a peer that answers everything: every blocking sender (Channel, CallbackSession) must be served Ok with its own payload, only FfiChannel may refuse, transmitted frames == accepted requests; two reads FfiChannel must refuse for their range must invoke the callback exactly once with an error other than Shutdown. A net leg runs the production TCP task on a multi-thread runtime against a flaky loopback server with eight concurrent submitters (all three API styles), a controller toggling enable/disable and a final shutdown or handle drop, checking the schedule-independent part: one completion per request, Ok only with that request's own payload, Shutdown only once the task is going away.",
   note="KNOWN FINDING (known_findings.txt): a call FfiChannel refuses because the queue is full reports Shutdown through its callback while the task is alive; reported under a fixed signature, exit 0. The outer reconnect loop is composed from hooked primitives in the same order as the production task (harness code); the production task is exercised black-box in C13/C14."),
 "C11": dict(engine="sim", cat="exploration", design="3/C11",
   technique="runtime monitor: unique-payload history checker (every peer reply carries a unique serial) + write-log order / id-arithmetic / one-outstanding checks",
   text="Sessions of 1-200 queued reads and sessions of 70000 requests crossing the id wrap; peer sends genuine, stale-by-d, future-by-d, duplicate, only-stale, late or no replies and unsolicited frames carrying the next id while idle; set_decode_level / redundant enable commands are interleaved with the requests (they travel through the same queue and must not consume ids). A request's result must be the first frame with its id completely delivered while it was outstanding, else a timeout.",
   note="Lateness is decided from measured delivery instants; exact ties with a deadline are skipped and counted."),
 "C12": dict(engine="sim", cat="exploration", design="3/C12",
   technique="runtime monitor in virtual time: completion instants checked against t_tx+T from the transport log; exhaustive outcome-sequence enumeration for the consecutive-timeout limit",
   text="Per-request timeouts from 0 ns to 1 h, plus 'no timeout' values up to Duration::MAX (the reply must still be accepted and the channel must keep working), replies arriving never / whole / split around the deadline; a timeout must complete within [deadline, deadline+1ms], an earlier complete reply must succeed with its data, the next request must still work; stale and foreign-id frames arriving before the deadline must not move it. All outcome sequences over {timeout, success, exception, bad reply} up to length 4 (quick) / 6 (thorough) x limits {none,1,2,3,4}: the session must end exactly at the N-th consecutive timeout.",
   note="1 ms timer granularity and exact ties are accepted either way (documented in DESIGN.md 2.5)."),
 "C20": dict(engine="sim", cat="exploration", design="3/C20",
   technique="differential runtime monitor: same script executed at decode level nothing, maximum, random and with a level change injected at every position; full observation records (bytes+virtual timestamps, results+instants, handler log, state, session end) must be equal",
   text="Server scripts (C01/C17 generators re-partitioned with gaps, level change at every chunk gap incl. mid-frame) and client scripts (1-8 requests with genuine/exception/bad/never/split/stale replies, level change before each request and one millisecond into each outstanding transaction), with a formatting subscriber so that all decode paths execute; a third of the server scripts run against a slow reader (replies leave in pieces of 5 / 16 / 64 bytes, 300 us apart) so that level changes arrive while a reply is partly written.",
   note="Only the decode-level command itself is excluded from the record."),

 "C09": dict(engine="net", cat="fault_enumeration", design="3/C09",
   technique="fault/configuration enumeration under a runtime monitor: every cell of the TLS grid is a real handshake between the rodbus endpoint and an independent TLS stack (CPython ssl/OpenSSL peer), judged by a truth table; handler and authorization logs must stay empty in refused cells",
   text="The grid {min 1.2,1.3} x {authority,self-signed} x {authz,no authz} x {server,client role} x peer offers {1.2 only,1.3 only,both} x certificate {valid, wrong authority/other certificate, wrong name, expired, not yet valid, role-less, other role, two role extensions (different / equal roles)}, plus client cells with an IP-literal expected name against certificates carrying that IP / only a DNS name / another IP, is enumerated completely (252 applicable cells); the peer sends a Modbus write right after its own Finished and plaintext Modbus is sent to the TLS port. Negotiated version and the role delivered to the authorization handler are checked.",
   note="Trusts CPython's ssl module / OpenSSL as the independent peer and the fixture PKI in fixtures/pki (minted by mint.sh). Validity is judged at today's clock only. Two-role certificates are minted by DER surgery (fixtures/pki/mint_extra.py); a role extension that is not a UTF8String is not tested."),
 "C13": dict(engine="net", cat="exploration", design="3/C13",
   technique="online trace automaton on the connection-state listener stream with the listener callback used as a lock-step gate; accept counter, request-result and JoinHandle monitors",
   text="The real TCP client task runs against a harness-owned listener; at every state notification the task is parked while one user event (enable, disable, shutdown, drop handles, submit) and the environment for the next attempt (refused, accept+close, accept+garbage, accept+silent, served) are injected. Checked: legal transitions, expected successor when nothing is pending, Disabled after disable, no accept while Disabled, no-connection for requests submitted while down, a request handed over at a wait-state notification has completed when Connecting is announced (logical order, no clock), a shutdown queued right behind a disable still takes effect, Shutdown once and last, handles report shutdown, task terminates.",
   note="Wall-clock only as watchdog. A request queued at the Connecting gate may legitimately be served when the connect completes in its first poll (measured and reported). A TLS client whose peer never completes the handshake is 'not connected': requests fail at once, disable is reported, shutdown / dropping the handles ends the task (defect D11 on the original tree, fixed). Serial speeds 0 / 1 / u32::MAX on a pty must not kill the task. Serial (pty) legs run the PortState automaton on the serial client task (port open failures, shutdown / handle drop) and a port behind a symlink that opens, is disabled (the port must really be released: observed at the pty master), re-enabled, disappears and comes back (requests during the wait fail with no-connection, re-open observed from outside)."),
 "C14": dict(engine="net", cat="exploration", design="3/C14",
   technique="model comparison of the public strategy object over enumerated call sequences (panic = violation) + runtime monitor with a logging wrapper strategy on the real TCP client task (call-log grammar, announced delay == returned value, measured wait >= delay)",
   text="Strategy object: all (min,max) pairs of a lattice up to Duration::MAX, all sequences over {fail, disconnect, reset} up to length 7 (quick) / 9 (thorough) plus runs of 70/130 failures. Task level: a strategy saturated at Duration::MAX (delay announced, task responsive, shutdown honoured); outcome sequences of 2-10 over {refused, accepted then closed, accepted then garbage} with min 20 ms / max 150 ms, with enable/disable/decode-level commands issued during the waits (a command must not shorten or restart the wait); a quarter of the scripts run the TLS client task against the same plain-TCP peer, where every accepted connection fails inside the handshake and must count as a failed connect (doubling continues, no reset, no after_disconnect); the same monitor on the serial client (open retry on a pty that disappears) and the RTU server task (port retry); and, measured from outside at the pty master, the instant at which a lost port (symlink re-pointed to a second pty) is opened again by the serial client and by the RTU server: never earlier than the delay.",
   note="Pairs with min > max are excluded (statement is contradictory there). Only the lower bound of a wait is a verdict."),
 "C15": dict(engine="net", cat="exploration", design="3/C15",
   technique="black-box history checker: alive/closed vector of real sockets after every event compared with an ordered-list model of the session tracker",
   text="Histories of 5-30 events over {connect, client close, request, malformed header, set decode level, shutdown, drop handle} with max_sessions 0..4 against the real TCP server task; sentinel requests with unique transaction ids decide alive, EOF/reset decides closed. TLS leg: histories over {valid TLS client connects, connections that never become sessions (plaintext, garbage, connect-and-close, ClientHello fragment), connections that stay silent inside the handshake, client leaves, probe all} against the real TLS server task with limits 1-3; session-holding peers are rodbus TLS clients with a state listener.",
   note="A discrepancy is reported only if it reproduces with a 10x longer grace for the server to notice closed peers. A connection that stays inside the TLS handshake is a session like any other: it holds a place, must not disturb anybody else, and is closed when evicted and at shutdown (defect D12 on the original tree, fixed). Whether a connection that arrives at the limit and then fails its handshake evicts the oldest session is accepted either way (the model follows what is observed)."),
 "C16": dict(engine="net", cat="exploration", design="3/C16",
   technique="black-box monitor: connections from chosen loopback source addresses to real servers (TCP, TLS, TLS+authz; Rust API and C ABI) judged by an independent matcher; three-valued oracle over enumerated wildcard strings",
   text="Filters: any, exact v4/v6, sets of 1-5 mixed addresses, the unspecified / broadcast / IPv4-mapped addresses as ordinary filter values (fixed first cases of every campaign and constructor), wildcards with literal/'*' fields on a boundary lattice; sources 127.a.b.c and ::1. Served = sentinel reply / completed handshake and Modbus reply through an independent TLS peer; refused = EOF before any byte. Parser: every string over a 12-symbol alphabet up to length 5 (quick) / 7 (thorough) plus grammar-generated strings.",
   note="The C-ABI variants (rodbus_server_create_tcp/_tls/_tls_with_authz, rodbus_address_filter_*) run in the ffi engine as part of this check. '+1' and leading zeros in a field are don't-care."),

 "C18": dict(engine="ffi", cat="exploration", design="3/C18",
   technique="differential runtime monitor: the same scenario through the extern C surface and through the Rust API, outcomes mapped through an independent name table; callback-lifecycle counters (completion exactly once, on_destroy exactly once); AddressSanitizer / Miri legs in the thorough tier",
   text="All eight client operations x outcomes (genuine, 9 standard + all 256 raw exception codes, bad response, bad framing, close, silence, no listener, queue full, handle destroyed, runtime destroyed) against a scripted loopback peer; request bytes vs the reference encoder; measured timeouts; a C write handler answering success / each standard exception / raw codes for all four write functions observed by a raw client; 36 decode levels through both APIs with the C logger installed; client and port state listeners; calls the library must refuse (count 0, over-limit and overflowing ranges and lists, null channel: nothing transmitted, a failure reported, completion exactly once); the same list object used for several writes; five kinds of bad response; disabling and re-enabling a channel; decode levels set on a running channel and on a running server (36 levels each, compared with a channel / server created at that level); the RTU server constructor on a pty (database reads, write handler, CRC, silence for other units); the runtime's shutdown timeout - every function of the C ABI is called by the harness; configuration pass-through (max_queued_requests; TLS client expected name / wildcard switch / minimum version / certificate mode against an independent TLS server and against the Rust constructor; TLS server minimum version and certificate mode; retry strategy delays measured; serial flow control / stop bits read back from the pty; max_sessions 2 / 256 / 258 through each of the three TCP/TLS server constructors); a C authorization handler with one callback per function and a per-function answer (four masks): which callback is consulted, its arguments and role, the client's result, the write-handler calls.",
   note="The harness is Rust linking the rodbus-ffi rlib and calling only generated extern \"C\" functions with extern \"C\" callbacks (no C compiler involved). Every completion callback must fire exactly once, also for calls that are refused (this was don't-care until round 7; the unchanged tree violated it - defect D10, fixed). A pty forces 8 data bits / no parity and has no baud rate, so only flow control and stop bits of the serial settings are observable."),
 "C19": dict(engine="ffi", cat="exploration", design="3/C19",
   technique="model comparison (HashMap reference) of every rodbus_database_* return value and of raw-socket reads; torn-read detector under multi-thread stress with injected yields inside the transaction callback, overlap counter",
   text="Random add/update/delete/get sequences over four point types and six indices inside configure and transaction callbacks, interleaved with wire reads (exception 02 when a point is absent); stress with 3 writer threads setting 50 registers to one fresh value per transaction and 6 raw clients reading all 50 in one request, counting reads that overlapped an open transaction.",
   note="Overlap is under-estimated by sampling a counter before/after each read; a run with too few overlaps is inconclusive."),
}

NOT_YET = {
}

def main():
    checks = []
    for pid in sorted(CHECKS):
        c = CHECKS[pid]
        checks.append({
            "property_id": pid,
            "quick_cmd": f"./vcheck {pid} quick",
            "thorough_cmd": f"./vcheck {pid} thorough",
            "evidence_file": f"/verif/evidence/{pid}.json",
            "replay_cmd_template": f"./vcheck {pid} quick --replay {{path}}",
            "engine": c["engine"],
            "level_claimed": {"category": c["cat"], "text": c["text"], "design_ref": c["design"]},
            "level_note": c["note"],
            "technique": c["technique"],
        })
    all_ids = [f"C{i:02d}" for i in range(1, 21)]
    na = []
    for pid in all_ids:
        if pid not in CHECKS:
            na.append({"property_id": pid, "reason": NOT_YET.get(pid, "check not built yet in this snapshot of /verif (runtime monitoring applies; see DESIGN.md section 3)")})
    manifest = {
        "version": 1,
        "setup_cmd": "./setup.sh",
        "hooks": {
            "guard": "cargo feature `verif-hooks` of crate rodbus (off by default)",
            "enable": "harness crates depend on rodbus by path with features = [\"verif-hooks\", \"ffi\"]; nothing in /repo is built with the feature otherwise",
            "baseline_off_cmd": "cd /repo && cargo test --workspace --no-fail-fast --offline",
            "source_commits": repo_commits("verif-hooks"),
            "add_only": True,
        },
        "engines": [
            {"name": "sim", "path": "harness/vsim", "serves_properties": ["C01","C02","C03","C04","C05","C06","C07","C08","C10","C11","C12","C17","C20"], "kind_free_text": "production session loops over a scripted in-memory transport, single thread, virtual time, reference-model oracles"},
            {"name": "net", "path": "harness/vnet", "serves_properties": ["C05","C06","C08","C09","C10","C13","C14","C15","C16"], "kind_free_text": "black box over loopback TCP/TLS/pty with lock-step listeners and history checkers; also the TLS / pty / real-schedule legs of C05, C06, C08, C10 (merged into those checks by the sim engine)"},
            {"name": "ffi", "path": "harness/vffi", "serves_properties": ["C16","C18","C19"], "kind_free_text": "extern C surface of rodbus-ffi driven from Rust; also built under ASan / run under Miri"},
        ],
        "checks": checks,
        "not_applicable": na,
        "notes": "exit 0 = held on everything explored; exit 1 + VIOLATION line = refuting execution (replay file); exit 2 = inconclusive (build failure, watchdog, too few events). Known findings: /verif/known_findings.txt.",
    }
    with open(os.path.join(ROOT, "MANIFEST.json"), "w") as f:
        json.dump(manifest, f, indent=1)
        f.write("\n")

if __name__ == "__main__":
    main()
