#!/usr/bin/env python3
"""Generate /verif/MANIFEST.json from the table below (single source of truth)."""
import json, os, subprocess

ROOT = os.path.dirname(os.path.dirname(os.path.abspath(__file__)))

def repo_commits(prefix):
    out = subprocess.run(["git", "-C", "/repo", "log", "--format=%H %s"], capture_output=True, text=True).stdout
    return [l.split()[0] for l in out.splitlines() if l.split(" ", 1)[1].startswith(prefix)]

CHECKS = {
 "C01": dict(engine="sim", cat="exploration", design="3/C01",
   technique="runtime monitor: production server session on a scripted transport, output byte stream compared with an executable reference Modbus server (differential oracle), overflow checks + debug assertions on",
   text="Every generated session (requests over the grammar incl. the full (function byte x payload length) grid, unit maps, handler exception maps, read partitions, decode levels; MBAP and RTU) is executed by the real SessionTask and its complete output is compared byte-for-byte with a reference server written from the specification. Held = no differing byte on the executions produced; not a proof.",
   note="Trusts the reference server in harness/vcommon/src/model.rs and the hook that substitutes the byte stream (rodbus::verif). Outcomes the property text leaves open are accepted both ways (listed in DESIGN.md 2.5)."),
 "C02": dict(engine="sim", cat="exploration", design="3/C02",
   technique="runtime monitor: ordered handler/authorization call log and final application state checked against the reference server's predicted calls (sequential log matcher)",
   text="Instrumented handlers record every invocation with fully drained iterators and size hints; the log and the resulting point store are compared with what the reference predicts from the input alone, on sessions weighted 3:1 towards malformed / over-limit / wrong-unit / unknown-function input.",
   note="Reads are checked to stay inside the requested range (what the property states), writes exactly once with exact values. Trusts the instrumented handlers and reference parser."),
 "C08": dict(engine="sim", cat="exploration", design="3/C08",
   technique="runtime monitor: interleaved authorization+handler call log, replies and state vs reference server with pure, stateful and built-in read-only policies",
   text="Sessions are created with (authorization handler, role) through the hook; pure-function, alternate, allow-once, deny-once, allow-all, deny-all and the built-in read-only policy, 7 role strings. One ordered log shows the authorization call precedes any point access; denied requests must leave state untouched and be answered with exception 01.",
   note="The role string is injected through the hook; the certificate -> role path is exercised over real TLS in C09. Authorization is not expected to be consulted for malformed requests."),
 "C17": dict(engine="sim", cat="exploration", design="3/C17",
   technique="runtime monitor: output-stream equality (silence = equality) and per-unit call logs vs reference server over the whole unit-id space, RTU broadcast included",
   text="All 256 unit ids x eight kinds x valid / handler-failing / malformed against handler maps of 0-4 units, in sequences so that a silent frame is followed by an answered one; broadcast writes must reach every configured unit exactly once and never be answered.",
   note="Trusts reference server; attribution of an unexpected reply to a silent request uses unique transaction ids (MBAP) or the unit id (RTU, no authorization)."),
}

NOT_YET = {
}

def main():
    checks = []
    for pid in sorted(CHECKS):
        c = CHECKS[pid]
        checks.append({
            "property_id": pid,
            "quick_cmd": f"./vcheck {pid} quick",
            "thorough_cmd": f"./vcheck {pid} thorough",
            "evidence_file": f"/verif/evidence/{pid}.json",
            "replay_cmd_template": f"./vcheck {pid} quick --replay {{path}}",
            "engine": c["engine"],
            "level_claimed": {"category": c["cat"], "text": c["text"], "design_ref": c["design"]},
            "level_note": c["note"],
            "technique": c["technique"],
        })
    all_ids = [f"C{i:02d}" for i in range(1, 21)]
    na = []
    for pid in all_ids:
        if pid not in CHECKS:
            na.append({"property_id": pid, "reason": NOT_YET.get(pid, "check not built yet in this snapshot of /verif (runtime monitoring applies; see DESIGN.md section 3)")})
    manifest = {
        "version": 1,
        "setup_cmd": "./setup.sh",
        "hooks": {
            "guard": "cargo feature `verif-hooks` of crate rodbus (off by default)",
            "enable": "harness crates depend on rodbus by path with features = [\"verif-hooks\", \"ffi\"]; nothing in /repo is built with the feature otherwise",
            "baseline_off_cmd": "cd /repo && cargo test --workspace --no-fail-fast --offline",
            "source_commits": repo_commits("verif-hooks"),
            "add_only": True,
        },
        "engines": [
            {"name": "sim", "path": "harness/vsim", "serves_properties": ["C01","C02","C03","C04","C05","C06","C07","C08","C10","C11","C12","C17","C20"], "kind_free_text": "production session loops over a scripted in-memory transport, single thread, virtual time, reference-model oracles"},
            {"name": "net", "path": "harness/vnet", "serves_properties": ["C09","C13","C14","C15","C16"], "kind_free_text": "black box over loopback TCP/TLS/pty with lock-step listeners and history checkers"},
            {"name": "ffi", "path": "harness/vffi", "serves_properties": ["C16","C18","C19"], "kind_free_text": "extern C surface of rodbus-ffi driven from Rust; also built under ASan / run under Miri"},
        ],
        "checks": checks,
        "not_applicable": na,
        "notes": "exit 0 = held on everything explored; exit 1 + VIOLATION line = refuting execution (replay file); exit 2 = inconclusive (build failure, watchdog, too few events). Known findings: /verif/known_findings.txt.",
    }
    with open(os.path.join(ROOT, "MANIFEST.json"), "w") as f:
        json.dump(manifest, f, indent=1)
        f.write("\n")

if __name__ == "__main__":
    main()
