#!/usr/bin/env bash
# tools/try_patch.sh <patch.diff> <ID> [ID...]   -- apply a seeded change to /repo, run the quick
# checks, ALWAYS undo. Prints one line per check: ID exit=<code> <violation count> <first sig>
set -u
PATCH="$(readlink -f "$1")"; shift
cd /repo
if [ -n "$(git status --porcelain --untracked-files=no)" ]; then echo "/repo not clean"; exit 3; fi
if ! git apply --check "$PATCH" 2>/dev/null; then echo "patch does not apply: $PATCH"; exit 3; fi
git apply "$PATCH"
trap 'git -C /repo checkout -- . ; git -C /repo clean -fdq -- rodbus ffi integration 2>/dev/null' EXIT
cd /verif
for id in "$@"; do
  log="/verif/out/try-$id.log"
  VERIF_SEED="${VERIF_SEED:-1}" ./vcheck "$id" "${TIER:-quick}" > "$log" 2>&1
  code=$?
  n=$(grep -c '^VIOLATION' "$log")
  first=$(grep -m1 'violation: sig=' "$log" | sed 's/^ *violation: //' | cut -c1-220)
  echo "$id exit=$code violations=$n $first"
done
