#!/usr/bin/env python3
"""tools/reverify_all.py <worktree-prefix> <jobs>
Re-confirms every seeded change on the current /repo HEAD (after repairs in /repo the patches and the
demonstrations may have gone stale): for each seeded/<Cxx-N> runs tools/verify_seed.sh in one of <jobs>
scratch worktrees <worktree-prefix>1..N (created and removed here; outside /repo and /verif).
Prints one line per seed; exit 1 if any seed is not 'suite pass / demo fails with / passes without'."""
import json, os, re, subprocess, sys, shutil
from concurrent.futures import ThreadPoolExecutor
prefix, jobs = sys.argv[1], int(sys.argv[2])
seeds = sorted(d for d in os.listdir('/verif/seeded') if re.match(r'C\d\d-\d+$', d))
head = subprocess.run(['git','-C','/repo','rev-parse','HEAD'],capture_output=True,text=True).stdout.strip()
def mode_of(demo):
    m = re.search(r'--test (\S+)`', demo)
    fm = re.search(r'--features (\S+)', demo)
    feat = fm.group(1) if fm else ''
    if demo.startswith('copy demo.rs to rodbus/tests/'): return 'rodbus_tests', m.group(1), feat
    if demo.startswith('copy demo.rs to ffi/rodbus-ffi/tests/'): return 'ffi_tests', m.group(1), ''
    f = re.search(r'--offline (\S+)`', demo).group(1)
    if 'rodbus/src/client/task.rs' in demo and demo.startswith('insert'): return 'task_tests', f, ''
    if 'rodbus/src/serial/frame.rs' in demo: return 'frame_tests', f, ''
    if demo.startswith('append demo.rs to ffi/'): return 'ffi_append', f, ''
    if demo.startswith('append demo.rs to rodbus/src/client/task.rs'): return 'append_task', f, ''
    if 'append `#[cfg(test)] mod' in demo: return 'lib_mod', f, ''
    raise SystemExit('unknown demonstration: ' + demo)
def worker(k):
    wt = f'{prefix}{k}'; out = f'{prefix}{k}-out'
    subprocess.run(['git','-C','/repo','worktree','add','-q','--detach',wt,head],check=True)
    res = []
    for i, s in enumerate(seeds):
        if i % jobs != k - 1: continue
        shutil.rmtree(out, ignore_errors=True); os.makedirs(out)
        shutil.copy(f'/verif/seeded/{s}/patch.diff', f'{out}/patch1.diff'); shutil.copy(f'/verif/seeded/{s}/demo.rs', f'{out}/demo1.rs')
        mode, filt, feat = mode_of(json.load(open(f'/verif/seeded/{s}/meta.json'))['demonstration'])
        r = subprocess.run(['/verif/tools/verify_seed.sh', wt, out, '1', mode, filt] + ([feat] if feat else []), capture_output=True, text=True)
        line = (r.stdout.strip().splitlines() or ['?'])[-1]
        ok = 'suite_with_change=pass demo_with_change=fail demo_without_change=pass' in line
        print(f'{s}: {"ok" if ok else "STALE"} {line.split(": ",1)[-1]}', flush=True)
        res.append(ok)
    subprocess.run(['git','-C','/repo','worktree','remove','--force',wt]); shutil.rmtree(out, ignore_errors=True)
    return res
with ThreadPoolExecutor(jobs) as ex:
    allres = [x for r in ex.map(worker, range(1, jobs + 1)) for x in r]
print(f'{sum(allres)} of {len(allres)} seeds confirmed on {head[:7]}')
sys.exit(0 if all(allres) else 1)
