#![no_main]
//! Coverage-guided leg of C07: arbitrary bytes into the production server session and client
//! loop (scripted transport, virtual time). Any panic / spin / ignored EOF aborts the process,
//! which libFuzzer records as a crash with the input as artifact.
use libfuzzer_sys::fuzz_target;
use std::collections::BTreeMap;
use vcommon::model::{Framing, Store};
use vsim::io::In;
use vsim::server_run::{run_server_case_with, Followup, ServerCase};

fuzz_target!(|data: &[u8]| {
    if data.len() < 3 {
        return;
    }
    vsim::util::install_tracing_sink();
    let sel = data[0];
    let framing = if sel & 1 == 0 { Framing::Mbap } else { Framing::Rtu };
    let level = ((sel >> 1) % 36) as u8;
    let decode = (level % 4, (level / 4) % 3, (level / 12) % 3);
    let chunk = 1 + (data[1] as usize % 64) * if data[1] > 127 { 9 } else { 1 };
    let body = &data[2..];
    let mut script: Vec<In> = body.chunks(chunk).map(|c| In::Chunk(c.to_vec())).collect();
    script.push(In::Eof);
    let mut stores = BTreeMap::new();
    stores.insert(1u8, Store::new(7, 1, 2));
    stores.insert(0x2Au8, Store::new(9, 0x2A, 0));
    let case = ServerCase { framing, stores, policy: None, script, decode, commands: vec![] };
    let sentinel = match framing {
        Framing::Mbap => vcommon::model::mbap_frame(1, 1, &[3, 0, 0, 0, 1]),
        Framing::Rtu => vcommon::model::rtu_frame(1, &[3, 0, 0, 0, 1]),
    };
    let obs = run_server_case_with(&case, Some(&Followup { script: vec![In::Chunk(sentinel), In::Eof] }));
    if let Some(p) = obs.panic {
        panic!("server session panicked: {p}");
    }
    if obs.spin_detected || obs.timed_out || obs.poisoned || obs.followup_panic.is_some() {
        panic!("server wedge: spin={} never_ended={} poisoned={} followup_panic={:?}", obs.spin_detected, obs.timed_out, obs.poisoned, obs.followup_panic);
    }
    // client role: the same bytes as the peer's answer to one request
    let mut ev = vcommon::report::Evidence::new();
    vsim::checks::c07::client_bytes(framing, decode, body, &mut ev);
    if let Some(v) = ev.violations.first() {
        panic!("client: {} :: {}", v.sig, v.what);
    }
});
